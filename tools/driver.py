"""Check driver: translators -> Coq build -> harness build -> correspondence -> audit -> evidence."""
import sys, os, re, json, time, subprocess, fcntl, hashlib, shutil, glob
from concurrent.futures import ThreadPoolExecutor

HERE = os.path.dirname(os.path.abspath(__file__))
ROOT = os.path.dirname(HERE)
REPO = os.environ.get("VERIF_REPO", "/repo")
COQ = os.path.join(ROOT, "coq")
WORK = os.path.join(ROOT, "work")
HARNESS = os.path.join(ROOT, "harness")
GUARD = "essential_base_verif"
MAX_BATCH = 3200      # cases per engine invocation (16 shards of at most 200: limit-sized stacks and memories make some literals large,
                      # and coqc's memory grows with the size of a shard)
JOBS = int(os.environ.get("VERIF_JOBS", "16"))
SHARD_JOBS = 12       # coqc processes evaluating shards at a time (a shard of limit-sized cases can take 2-3 GB)

import gen_optable, gen_consts
import props as P

FORBIDDEN = r'\b(Admitted|admit|Axiom|Axioms|Parameter|Parameters|Conjecture|Conjectures|Admit Obligations|bypass_check)\b|Unset\s+Guard|Unset\s+Positivity|Unset\s+Universe|type-in-type|impredicative-set'


def log(msg):
    print(msg, flush=True)


def sh(cmd, cwd=None, env=None, timeout=3600):
    e = dict(os.environ)
    if env:
        e.update(env)
    try:
        r = subprocess.run(cmd, cwd=cwd, env=e, stdout=subprocess.PIPE, stderr=subprocess.STDOUT, timeout=timeout,
                           shell=isinstance(cmd, str))
        return r.returncode, r.stdout.decode(errors="replace")
    except subprocess.TimeoutExpired as ex:
        return 124, (ex.stdout or b"").decode(errors="replace") + "\nTIMEOUT"


class BuildLock:
    def __enter__(self):
        os.makedirs(WORK, exist_ok=True)
        self.f = open(os.path.join(WORK, ".lock"), "w")
        fcntl.flock(self.f, fcntl.LOCK_EX)
        return self

    def __exit__(self, *a):
        fcntl.flock(self.f, fcntl.LOCK_UN)
        self.f.close()


# ------------------------------------------------------------------ translators
def run_translators():
    errs = []
    for mod in (gen_optable, gen_consts):
        try:
            mod.main()
        except Exception as e:
            errs.append("%s: %s" % (mod.__name__, e))
    try:
        import inventory
        inventory.main()
    except ImportError:
        pass
    except Exception as e:
        errs.append("inventory: %s" % e)
    return errs


# ------------------------------------------------------------------ Coq
def coq_makefile():
    mk = os.path.join(COQ, "Makefile")
    cp = os.path.join(COQ, "_CoqProject")
    if not os.path.exists(mk) or os.path.getmtime(mk) < os.path.getmtime(cp):
        rc, out = sh(["coq_makefile", "-f", "_CoqProject", "-o", "Makefile"], cwd=COQ)
        if rc != 0:
            raise RuntimeError("coq_makefile failed: " + out)


def coq_make(targets, timeout=3000):
    """Builds the given .vo targets (full .vo build).  Returns (ok, log, failing_file)."""
    coq_makefile()
    rc, out = sh(["make", "-j%d" % JOBS, "-k"] + targets, cwd=COQ, timeout=timeout)
    failing = re.findall(r'File "\./(theories/[^"]+)", line (\d+)', out)
    return rc == 0, out, failing


def vo(path):
    return "theories/" + path + ".vo"


def prop_files(cfg):
    pf = cfg["properties"]
    return pf if isinstance(pf, list) else [pf]


def theorem_names(prop_file):
    names = []
    for f in (prop_file if isinstance(prop_file, list) else [prop_file]):
        src = open(os.path.join(COQ, "theories", f + ".v")).read()
        names += re.findall(r'^(?:Theorem|Example)\s+(\w+)', src, flags=re.M)
    return names


def audit(pid, prop_file, outdir):
    """Forbidden-token grep over the whole development and Print Assumptions of the property's theorems."""
    problems = []
    for f in glob.glob(os.path.join(COQ, "theories", "**", "*.v"), recursive=True):
        src = open(f).read()
        src_nc = re.sub(r'\(\*.*?\*\)', '', src, flags=re.S)
        for m in re.finditer(FORBIDDEN, src_nc):
            problems.append("%s: forbidden token %r" % (os.path.relpath(f, ROOT), m.group(0)))
    cp = open(os.path.join(COQ, "_CoqProject")).read()
    if re.search(r'type-in-type|impredicative-set|-vos|-vok', cp):
        problems.append("_CoqProject passes a forbidden flag")
    names = theorem_names(prop_file)
    files = prop_file if isinstance(prop_file, list) else [prop_file]
    a = os.path.join(outdir, "audit_%s.v" % pid)
    with open(a, "w") as f:
        for pf in files:
            f.write("Require Import %s.\n" % ("EB." + pf.replace("/", ".")))
        for n in names:
            f.write('Goal True. idtac "@@ %s". exact I. Qed.\nPrint Assumptions %s.\n' % (n, n))
    rc, out = sh(["coqc", "-noglob", "-Q", os.path.join(COQ, "theories"), "EB", a], timeout=600)
    allowed = set(l.strip() for l in open(os.path.join(HERE, "assumptions_allow.txt")) if l.strip() and not l.startswith("#"))
    assumptions = {}
    if rc != 0:
        problems.append("Print Assumptions run failed: " + out[-400:])
    else:
        chunks = re.split(r'@@ (\w+)\n', out)
        for i in range(1, len(chunks), 2):
            name, body = chunks[i], chunks[i + 1]
            if "Closed under the global context" in body:
                assumptions[name] = []
            else:
                ax = re.findall(r'^([\w\.]+)\s*:', body, flags=re.M)
                assumptions[name] = ax
                for x in ax:
                    if x not in allowed:
                        problems.append("theorem %s depends on axiom %s (not allow-listed)" % (name, x))
        for n in names:
            if n not in assumptions:
                problems.append("no Print Assumptions output for %s" % n)
    return names, assumptions, problems


# ------------------------------------------------------------------ harness
def harness_build(profiles=("release",)):
    lock = os.path.join(HARNESS, "Cargo.lock")
    if not os.path.exists(lock):
        shutil.copy(os.path.join(REPO, "Cargo.lock"), lock)
    env = {"RUSTFLAGS": "--cfg %s" % GUARD, "CARGO_NET_OFFLINE": "true"}
    logs = []
    for prof in profiles:
        cmd = ["cargo", "build", "--offline", "--profile", prof]
        rc, out = sh(cmd, cwd=HARNESS, env=env, timeout=3000)
        logs.append(out)
        if rc != 0:
            return False, "\n".join(logs)
    return True, "\n".join(logs)


def harness_bin(profile):
    return os.path.join(HARNESS, "target", profile, "ebh")


def run_engine(spec, seed, tier, outdir, only=None, count_mult=1):
    """spec: dict(engine, quick, thorough, profile, prefix, args)"""
    count = spec["thorough" if tier == "thorough" else "quick"] * count_mult
    prof = spec.get("profile", "release")
    cmd = [harness_bin(prof), spec["engine"], "--seed", str(seed), "--count", str(count), "--shards", str(JOBS),
           "--out", outdir, "--tier", tier] + spec.get("args", [])
    if only is not None:
        cmd += ["--only", str(only)]
    rc, out = sh(cmd, env=spec.get("env"), timeout=3000)
    metas = [f for f in glob.glob(os.path.join(outdir, "*.json"))]
    meta = metas[0] if metas else ""
    if rc != 0 or not meta:
        return None, "engine %s failed (rc=%d): %s" % (spec["engine"], rc, out[-2000:])
    return json.load(open(meta)), out


def parse_evals(out):
    """coqc prints one `= [..] : list N` block per Eval; returns a list of id lists."""
    res = []
    for blk in re.split(r':\s*list\s+N', out)[:-1]:
        i = blk.rfind("=")
        res.append([int(x) for x in re.findall(r'(\d+)%N', blk[i:])])
    return res


def run_coq_shards(meta):
    def one(path):
        # a tighter major-heap policy keeps a shard's peak memory down (cases with limit-sized stacks and memories)
        rc, out = sh(["coqc", "-noglob", "-Q", os.path.join(COQ, "theories"), "EB", path], timeout=1800,
                     env={"OCAMLRUNPARAM": "o=40"})
        return path, rc, out
    with ThreadPoolExecutor(max_workers=min(JOBS, SHARD_JOBS)) as ex:
        results = list(ex.map(one, meta["shards"]))
    evnames = [e for e in meta["evals"] if e != "show_models"]
    meta["evals"] = evnames
    nev = len(evnames)
    ids = [[] for _ in range(nev)]
    errors = []
    for path, rc, out in results:
        if rc != 0:
            errors.append("%s: coqc rc=%d: %s" % (os.path.basename(path), rc, out[-1500:]))
            continue
        ev = parse_evals(out)
        tail = re.split(r':\s*list\s+N\b', out)[-1].strip()
        if tail and os.environ.get("VERIF_SHOW"):
            log("MODEL: " + re.sub(r'\s+', ' ', tail)[:3000])
        if len(ev) != nev:
            errors.append("%s: expected %d Eval results, got %d: %s" % (os.path.basename(path), nev, len(ev), out[-500:]))
            continue
        for k in range(nev):
            ids[k].extend(ev[k])
    return ids, errors


# ------------------------------------------------------------------ known findings
def inventory_static(pid):
    """New panic / wrap / shared-state sites in the files anchored to this property."""
    def fn():
        import inventory
        new, missing, errors, inv = inventory.compare()
        out = [("inventory", e) for e in errors]
        for k in new:
            if pid in inventory.props_of(k):
                out.append(("inventory", "site not accounted for by the model: %s (%d such line(s) in this function now: %s)"
                            % (k, new[k], " | ".join(inventory.EXAMPLES.get(k, [])[:4]))))
        return out
    return fn


def run_probe(probe):
    """Runs a harness probe in a child process under a memory and time limit.  Returns a description when the process
    aborted, was killed or did not return in time (the finding is confirmed), None when it returned a result."""
    cmd = "ulimit -v %d; exec %s %s" % (probe.get("mem_kb", 2000000), harness_bin("release"), probe["cmd"])
    rc, out = sh(["bash", "-c", cmd], timeout=probe.get("timeout", 40))
    if rc == 0 and "probe returned" in out:
        return None
    tail = [l for l in out.strip().splitlines() if l.strip()][-3:]
    return "rc=%d %s" % (rc, " | ".join(tail)[:300])


def load_known():
    path = os.path.join(ROOT, "known_findings.txt")
    out = []
    if os.path.exists(path):
        for l in open(path):
            l = l.strip()
            m = re.match(r'finding:\s+property=(\w+)\s+class=(\S+)\s+(.*)', l)
            if m:
                out.append({"property": m.group(1), "class": m.group(2), "text": m.group(3)})
    return out


# ------------------------------------------------------------------ main check
def write_json(path, obj):
    os.makedirs(os.path.dirname(path), exist_ok=True)
    with open(path, "w") as f:
        json.dump(obj, f, indent=1)


def check_property(pid, tier, seed, replay=None):
    t0 = time.time()
    cfg = P.PROPS[pid]
    outdir = os.path.join(WORK, pid)
    shutil.rmtree(outdir, ignore_errors=True)
    os.makedirs(outdir, exist_ok=True)
    broken = []           # broken ties: (kind, detail)
    obligations = []      # (name, discharged?)
    only = None
    if replay:
        os.environ["VERIF_SHOW"] = "1"
        r = json.load(open(replay))
        seed, tier, only = r.get("seed", seed), r.get("tier", tier), r.get("case_id")
        replay_engine = r.get("engine")

    with BuildLock():
        terrs = run_translators()
        for e in terrs:
            broken.append(("translator", e))
        # 1. theorems
        prop_file = prop_files(cfg)
        ok, mlog, failing = coq_make([vo(f) for f in prop_file])
        names = theorem_names(prop_file)
        if not ok:
            broken.append(("theorem", "Coq build of %s failed at %s" % (prop_file, failing[:3] or mlog[-600:])))
            write_json(os.path.join(outdir, "coq_build.log.json"), {"log": mlog[-20000:]})
            assumptions, aud = {}, []
        else:
            names, assumptions, aud = audit(pid, prop_file, outdir)
            for a in aud:
                broken.append(("audit", a))
        for n in names:
            obligations.append((n, ok and n in assumptions and not any(n in a for a in aud)))
        # thorough tier: re-check the compiled closure with the independent checker
        if tier == "thorough" and ok and not replay:
            mods = ["EB." + f.replace("/", ".") for f in prop_file]
            rc, out = sh(["coqchk", "-silent", "-o", "-Q", os.path.join(COQ, "theories"), "EB"] + mods, timeout=3000)
            axioms_none = re.search(r'Axioms:\s*<none>', out) is not None
            if rc != 0 or not axioms_none:
                broken.append(("coqchk", "coqchk failed or reports axioms: %s" % out[-600:]))
            obligations.append(("coqchk", rc == 0 and axioms_none))
        # 2. correspondence modules (depend on models only, so they survive a broken proof)
        corr_targets = [vo(c) for c in cfg.get("corr", [])]
        cok, clog, cfail = coq_make(corr_targets) if corr_targets else (True, "", [])
        if not cok:
            broken.append(("model", "Coq build of correspondence modules failed at %s" % (cfail[:3] or clog[-600:])))
        # 3. harness
        profiles = sorted(set(e.get("profile", "release") for e in cfg["engines"]))
        hok, hlog = harness_build(profiles) if cfg["engines"] else (True, "")
        if not hok:
            m = re.findall(r'^(error[^\n]*\n(?:[^\n]*\n){0,6})', hlog, flags=re.M)
            broken.append(("harness", "harness build against /repo failed: %s" % ("".join(m[:2]) or hlog[-800:])))
        # extra static checks of the property (inventories etc.)
        statics = list(cfg.get("static", []))
        if cfg.get("inventory"):
            statics.append(inventory_static(pid))
        for fn in statics:
            for kind, detail in fn():
                broken.append((kind, detail))

    # 4. correspondence + spec on implementation
    evaluations = 0
    distinct_nt = 0
    samples = []
    stats = {}
    spec_fail = []     # (engine spec, meta, id)
    mismatch = []
    corr_errors = []
    rounds = [(seed, 1)]
    engines = cfg["engines"]
    if replay:
        engines = [e for e in engines if e.get("name", e["engine"]) == replay_engine] or engines

    def run_round(rseed, mult, tag):
        nonlocal evaluations, distinct_nt
        for es0 in engines:
          # large volumes are run as several batches with different seeds so that no single coqc shard grows beyond
          # a few thousand cases (time and memory stay bounded whatever the tier asks for)
          total = es0["thorough" if tier == "thorough" else "quick"] * mult
          nb = 1 if only is not None else max(1, -(-total // MAX_BATCH))
          for b in range(nb):
            es = es0 if nb == 1 else dict(es0, quick=-(-total // nb) // mult, thorough=-(-total // nb) // mult)
            if b > 0:      # the fixed regression cases run in the first batch only
                es = dict(es, args=list(es.get("args", [])) + ["--no-corpus"])
            bseed = rseed + 7919 * b
            d = os.path.join(outdir, "%s_%s%s" % (es.get("name", es["engine"]), tag, "" if nb == 1 else "_b%d" % b))
            meta, out = run_engine(es, bseed, tier, d, only=only, count_mult=mult)
            if meta is None:
                corr_errors.append(out)
                continue
            ids, errs = run_coq_shards(meta)
            corr_errors.extend(errs)
            evaluations += meta["n"]
            distinct_nt += meta.get("distinct_nontrivial", 0)
            for k, v in meta.get("stats", {}).items():
                stats[k] = stats.get(k, 0) + v
            if len(samples) < 4:
                samples.extend(c["case"] for c in meta["cases"][:: max(1, len(meta["cases"]) // 3)][:3])
            byid = {c["id"]: c["case"] for c in meta["cases"]}
            evs = meta["evals"]
            for k, name in enumerate(evs):
                for i in ids[k]:
                    rec = {"engine": es.get("name", es["engine"]), "seed": bseed, "tier": tier, "case_id": i,
                           "eval": name, "case": byid.get(i)}
                    (spec_fail if ("spec" in name or name.startswith("sem_")) else mismatch).append(rec)

    if hok and cok:
        run_round(seed, 1, "r0")
        for e in corr_errors:
            broken.append(("correspondence", e))
        for m in mismatch[:5]:
            broken.append(("correspondence", "model and implementation differ on %s case %d: %s" % (m["engine"], m["case_id"], json.dumps(m["case"])[:300])))
        # targeted search: a tie is broken but no failing input yet -> widen the search
        if broken and not spec_fail and not replay:
            for extra in range(1, 3 if tier == "quick" else 5):
                run_round(seed + 1000 * extra, 3, "x%d" % extra)
                if spec_fail:
                    break

    # 4b. probes of resource-exhaustion findings (run in a child process under ulimit)
    probe_results = []
    if hok and not replay:
        for pr in cfg.get("probes", []):
            d = run_probe(pr)
            probe_results.append({"class": pr["class"], "confirmed": d is not None, "detail": d})
            if d is not None:
                spec_fail.append({"engine": "probe", "seed": seed, "tier": tier, "case_id": -1, "eval": "probe",
                                  "case": {"known_class": pr["class"], "probe": pr["cmd"], "what": pr["what"], "observed": d}})

    # 5. verdict
    known = [k for k in load_known() if k["property"] == pid]
    violations = []
    known_hits = {}
    for sf in spec_fail:
        kc = (sf["case"] or {}).get("known_class")
        hit = next((k for k in known if k["class"] == kc), None)
        if hit:
            known_hits.setdefault(kc, hit)
        else:
            violations.append(sf)
    for kc, hit in known_hits.items():
        log("KNOWN-FINDING: property=%s %s" % (pid, hit["text"]))

    exit_code = 0
    replay_paths = []
    if violations:
        for n, v in enumerate(violations[:5]):
            pth = os.path.join(outdir, "replay_%d.json" % n)
            v = dict(v, property=pid, kind="spec_failure",
                     note="the specification of %s fails on the implementation's behaviour for this input" % pid)
            write_json(pth, v)
            replay_paths.append(pth)
            log("VIOLATION property=%s replay=%s" % (pid, os.path.relpath(pth, ROOT)))
        exit_code = 1
    elif broken:
        pth = os.path.join(outdir, "broken_tie.json")
        write_json(pth, {"property": pid, "kind": "broken_tie", "seed": seed, "tier": tier,
                         "broken": [{"kind": k, "detail": d} for k, d in broken],
                         "first_mismatch": mismatch[0] if mismatch else None,
                         "engine": mismatch[0]["engine"] if mismatch else None,
                         "case_id": mismatch[0]["case_id"] if mismatch else None,
                         "note": "a theorem, generated table or correspondence no longer checks; the search evaluated the "
                                 "specification on %d implementation runs without finding a failing input" % evaluations})
        for k, d in broken[:8]:
            log("BROKEN-TIE %s: %s" % (k, d[:500]))
        log("VIOLATION property=%s replay=%s no-failing-input-found" % (pid, os.path.relpath(pth, ROOT)))
        exit_code = 1

    # 6. evidence
    n_obl = len(obligations) + len(cfg.get("extra_obligations", []))
    n_dis = sum(1 for _, d in obligations if d) + (len(cfg.get("extra_obligations", [])) if not broken else 0)
    ev = {
        "property_id": pid, "tier": tier, "seed": seed, "level": cfg.get("level", "proof"),
        "coverage": {
            "obligations": max(n_obl, 1), "discharged": n_dis if n_dis > 0 else (0 if n_obl else 1),
            "checker_cmd": "make -C coq %s (coqc 8.16.1 kernel, full .vo build) + Print Assumptions audit" % " ".join(vo(f) for f in prop_files(cfg)),
            "trusted_base": P.TRUSTED_BASE + cfg.get("trusted", []),
            "theorems": [{"name": n, "discharged": d, "assumptions": assumptions.get(n)} for n, d in obligations],
            "evaluations": evaluations, "distinct_nontrivial": distinct_nt,
            "rule": cfg.get("rule", ""), "samples": samples[:4] or ["(no correspondence cases were run)"],
            "case_kinds": stats, "mismatches": len(mismatch), "spec_failures": len(spec_fail),
            "known_findings_reported": sorted(known_hits.keys()),
            "broken_ties": [{"kind": k, "detail": d[:300]} for k, d in broken],
            "probes": probe_results,
            "exhaustive": False,
        },
        "assumptions": cfg.get("assumes", []),
        "wall_s": round(time.time() - t0, 1),
        "violations": len(violations) + (1 if (broken and not violations) else 0),
    }
    write_json(os.path.join(ROOT, "evidence", pid + ".json"), ev)
    log("%s %s: theorems %d/%d, correspondence cases %d (distinct non-trivial %d), mismatches %d, spec failures %d, %.0fs"
        % (pid, "OK" if exit_code == 0 else "FAIL", n_dis, n_obl, evaluations, distinct_nt, len(mismatch), len(spec_fail), time.time() - t0))
    if replay:
        for sf in spec_fail + mismatch:
            log("REPLAY %s: %s" % (sf["eval"], json.dumps(sf["case"])[:2000]))
        if not spec_fail and not mismatch:
            log("REPLAY: the case no longer fails on the current tree")
    return exit_code


def setup():
    t0 = time.time()
    with BuildLock():
        errs = run_translators()
        for e in errs:
            log("translator problem: " + e)
        coq_makefile()
        rc, out = sh(["make", "-j%d" % JOBS], cwd=COQ, timeout=7200)
        log(out[-3000:])
        if rc != 0:
            log("setup: Coq build failed")
            return 1
        profiles = sorted(set(e.get("profile", "release") for c in P.PROPS.values() for e in c["engines"]))
        ok, hlog = harness_build(profiles)
        log(hlog[-1500:])
        if not ok:
            log("setup: harness build failed")
            return 1
    log("setup done in %.0fs" % (time.time() - t0))
    return 0


def main(argv):
    if not argv or argv[0] in ("-h", "--help"):
        print(__doc__ or "usage: check <id> [--tier quick|thorough] [--replay path] | --setup")
        return 2
    if argv[0] == "--setup":
        return setup()
    pid = argv[0]
    tier = os.environ.get("VERIF_TIER", "quick")
    replay = None
    i = 1
    while i < len(argv):
        if argv[i] == "--tier":
            tier = argv[i + 1]; i += 2
        elif argv[i] == "--replay":
            replay = argv[i + 1]; i += 2
        else:
            i += 1
    seed = int(os.environ.get("VERIF_SEED", "1"))
    if pid not in P.PROPS:
        print("unknown property %s" % pid)
        return 2
    return check_property(pid, tier, seed, replay)
