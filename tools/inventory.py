#!/usr/bin/env python3
"""Translator 3: panic-site and shared-state inventory of the anchored Rust sources.

Lists, per non-test function, the syntactic sites where Rust code can panic, wrap or share mutable state:
unwrap/expect/panic!/unreachable!, slice indexing and splitting, unchecked arithmetic (+ - * << and the
compound forms), `as` casts, `abs()`, `with_capacity(` and the concurrency primitives.  The result is compared
with tools/inventory_allow.json (site -> model obligation that accounts for it).  A site that is not on the
allow-list means the hand-written model may no longer account for every panic/wrap/shared-state site: a
broken tie for the properties anchored in that file (DESIGN.md sections 4 and 6).  Sites that disappear are
reported in the evidence but are not alarms."""
import os, re, sys, json

REPO = os.environ.get("VERIF_REPO", "/repo")
HERE = os.path.dirname(os.path.abspath(__file__))
ROOT = os.path.dirname(HERE)

FILES = {
    "crates/vm/src/vm.rs": ["C05", "C07"], "crates/vm/src/sync.rs": ["C05"], "crates/vm/src/stack.rs": ["C05"],
    "crates/vm/src/memory.rs": ["C05"], "crates/vm/src/repeat.rs": ["C05"], "crates/vm/src/total_control_flow.rs": ["C05"],
    "crates/vm/src/compute.rs": ["C05", "C02", "C07"], "crates/vm/src/state_read.rs": ["C05"], "crates/vm/src/pred.rs": ["C05"],
    "crates/vm/src/sets.rs": ["C05"], "crates/vm/src/crypto.rs": ["C05"], "crates/vm/src/access.rs": ["C05"],
    "crates/vm/src/alu.rs": ["C05"], "crates/vm/src/cached.rs": ["C02"], "crates/vm/src/bytecode.rs": ["C06"],
    "crates/types/src/solution/decode.rs": ["C06"], "crates/types/src/predicate/encode.rs": ["C06"],
    "crates/types/src/predicate.rs": ["C06"], "crates/check/src/solution.rs": ["C06", "C02"],
    "crates/check/src/predicate.rs": ["C06"], "crates/asm/src/lib.rs": ["C06"], "crates/lock/src/lib.rs": ["C20"],
}

PANIC = [
    (r'\.unwrap\(\)', 'unwrap'), (r'\.expect\(', 'expect'), (r'\bpanic!', 'panic!'), (r'\bunreachable!', 'unreachable!'),
    (r'\bunimplemented!|\btodo!', 'todo'), (r'\.abs\(\)', 'abs'), (r'with_capacity\(', 'with_capacity'),
    (r'\.split_at\(|\.copy_within\(|\.copy_from_slice\(|\.swap\(', 'slice-op'),
    (r'\w\[[^\]]*[a-zA-Z_][^\]]*\]', 'index'),
    (r'[\w\)\]]\s*(\+=|-=|\*=)\s*', 'compound-arith'), (r'[\w\)\]]\s+(\+|\*|<<)\s+[\w\(]', 'arith'),
    (r'[\w\)\]]\s+-\s+[\w\(]', 'arith'), (r'\bas\s+(usize|u8|u16|u32|u64|i32|i64|Word)\b', 'cast'),
]
SHARED = [(r'\bMutex\b|\bRwLock\b|\bAtomic\w+|\bOnceLock\b|\bRefCell\b|\bCell<|static\s+mut|thread_local!|lazy_static|\bunsafe\b', 'shared-state'),
          (r'par_iter|into_par_iter|rayon::', 'parallel')]


def strip_tests_and_comments(src):
    out = []
    depth_skip = None
    depth = 0
    pending_cfg_test = False
    for line in src.split('\n'):
        code = re.sub(r'//.*', '', line)
        if re.search(r'#\[cfg\(test\)\]', code):
            pending_cfg_test = True
            out.append('')
            continue
        if depth_skip is None and pending_cfg_test:
            if '{' in code:
                depth_skip = depth
            elif code.strip().endswith(';'):
                pending_cfg_test = False       # `#[cfg(test)] mod x;` or `use`
                out.append('')
                continue
        opens, closes = code.count('{'), code.count('}')
        if depth_skip is not None:
            depth += opens - closes
            if depth <= depth_skip:
                depth_skip = None
                pending_cfg_test = False
            out.append('')
            continue
        depth += opens - closes
        out.append(code)
    return out


def conc_files():
    """Every non-test source file of the VM and checker crates: scanned for concurrency constructs only (C02)."""
    out = []
    for crate in ("vm", "check"):
        base = os.path.join(REPO, "crates", crate, "src")
        for dp, _, fs in os.walk(base):
            for f in sorted(fs):
                if f.endswith(".rs"):
                    out.append(os.path.relpath(os.path.join(dp, f), REPO))
    return sorted(out)


EXAMPLES = {}


def scan(rel, only_shared=False):
    path = os.path.join(REPO, rel)
    src = open(path).read()
    lines = strip_tests_and_comments(src)
    sites = {}
    fn = "<top>"
    examples = EXAMPLES
    for ln, code in enumerate(lines, 1):
        m = re.search(r'\bfn\s+(\w+)', code)
        if m:
            fn = m.group(1)
        text = re.sub(r'"[^"]*"', '""', code).strip()
        if not text or text.startswith('#[') or text.startswith('use '):
            continue
        if re.match(r'(pub\s+)?(where|impl|fn|trait|type|struct|enum)\b', text) or re.search(r'^\w+:\s', text) and 'Fn' in text:
            # signatures and bounds: `+` there is a trait bound
            kinds = [k for rx, k in SHARED if re.search(rx, text)]
        else:
            kinds = [k for rx, k in PANIC + SHARED if re.search(rx, text)]
        if only_shared:
            kinds = [k for k in kinds if k in ("shared-state", "parallel")]
        if re.search(r"\b(Send|Sync|Clone|Copy|'static|Deref|Display|Debug)\b|\bimpl\s|\bdyn\s", text):
            kinds = [k for k in kinds if k != 'arith']        # `+` between trait bounds
        for k in sorted(set(kinds)):
            # one entry per (file, function, kind) with the number of such lines: rewording a line or renaming a
            # variable on it changes nothing; a new panic / wrap / shared-state site in a function raises its count
            key = "%s::%s::%s" % (rel, fn, k)
            sites[key] = sites.get(key, 0) + 1
            examples.setdefault(key, []).append(re.sub(r'\s+', ' ', text)[:140])
    return sites


def inventory():
    EXAMPLES.clear()
    inv = {}
    errors = []
    for rel in FILES:
        try:
            inv.update(scan(rel))
        except Exception as e:
            errors.append("%s: %s" % (rel, e))
    for rel in conc_files():
        if rel not in FILES:
            try:
                inv.update(scan(rel, only_shared=True))
            except Exception as e:
                errors.append("%s: %s" % (rel, e))
    return inv, errors


def compare():
    """Returns (new_sites, missing_sites, errors) relative to the committed allow-list."""
    inv, errors = inventory()
    allow_path = os.path.join(HERE, "inventory_allow.json")
    allow = json.load(open(allow_path)) if os.path.exists(allow_path) else {}
    new = {k: v for k, v in inv.items() if v > allow.get(k, {}).get("count", 0)}
    missing = [k for k in allow if k not in inv]
    return new, missing, errors, inv


def props_of(site_key):
    parts = site_key.split("::")
    props = list(FILES.get(parts[0], []))
    # a new parallel construct or piece of shared mutable state anywhere in the VM or the checker is a schedule the
    # sequential model of C02 does not account for
    if len(parts) > 2 and parts[2] in ("shared-state", "parallel") and re.match(r'crates/(vm|check)/src/', parts[0]) and "C02" not in props:
        props.append("C02")
    return props


def main():
    new, missing, errors, inv = compare()
    os.makedirs(os.path.join(ROOT, "work"), exist_ok=True)
    json.dump({"new": new, "missing": missing, "errors": errors, "total": len(inv)},
              open(os.path.join(ROOT, "work/inventory.json"), "w"), indent=1)
    if "--pin" in sys.argv:
        covered = {
            "crates/vm/src/": "Vm/Machine.v, Vm/Step.v, Vm/Exec.v; unreachability of every Panic site: C05_step_never_panics / C05_exec_never_panics",
            "crates/types/src/solution/decode.rs": "Types/MutationCodec.v (slice/index sites are Panic outcomes); C06 decode_mutations_total",
            "crates/types/src/predicate": "Types/PredicateCodec.v (get_range = bytes.get(..): no panic site); PC_decode_predicate_total",
            "crates/check/src/": "Check/Graph.v, Check/Inner.v, Check/Set.v, Check/Validate.v; expects are unreachable after create_parent_map succeeded",
            "crates/asm/src/": "Asm/Op.v; C13_from_bytes_total",
            "crates/lock/src/": "Lock/Lock.v; poisoning is outside the model (a panicking closure)",
        }
        allow = {}
        for k, v in sorted(inv.items()):
            cov = next((t for pre, t in covered.items() if k.startswith(pre)), "")
            allow[k] = {"count": v, "covered_by": cov, "lines": EXAMPLES.get(k, [])}
        json.dump(allow, open(os.path.join(HERE, "inventory_allow.json"), "w"), indent=0)
    return 0


if __name__ == "__main__":
    sys.exit(main())
